import OpenFecVerif.Props.C02
import OpenFecVerif.Props.C03
/-!
# C01 — decoders never hand back a wrong source symbol

Reed-Solomon part: whatever k distinct symbols the decoder's selection rule picks, interpolation
returns the encoded source symbol (so a decoded symbol can only be right).  The LDPC-Staircase part
(iterative decoder invariant, Gaussian elimination soundness) is in `Proofs/ITSound.lean` and
`Proofs/GaussSound.lean` and is re-exported below as it is completed.
-/

/-- RS over GF(2^8) (codec 1, codec 2 with m = 8): every decoded source position equals the encoded one -/
theorem C01_rs_sound_gf8 (k n : ℕ) (hk : k ≤ n) (hn : n ≤ 255) (src : ℕ → GF8.GF256)
    (S : List ℕ) (hnd : S.Nodup) (hS : ∀ s ∈ S, s < n) (hlen : S.length = k) (j : ℕ) (hj : j < k) :
    (S.map fun s => GF8.model.φ (RS.basisAt RS.fld8 S s (RS.pt RS.fld8 j)) * GF8.model.cwModel k src s).sum
      = GF8.model.cwModel k src j := by
  rw [C02_any_k_gf8 k n hk hn src S hnd hS hlen j hj, C02_systematic_gf8 k n hk hn src j hj]

/-- RS over GF(2^4) (codec 2 with m = 4) -/
theorem C01_rs_sound_gf4 (k n : ℕ) (hk : k ≤ n) (hn : n ≤ 15) (src : ℕ → GF4.GF16)
    (S : List ℕ) (hnd : S.Nodup) (hS : ∀ s ∈ S, s < n) (hlen : S.length = k) (j : ℕ) (hj : j < k) :
    (S.map fun s => GF4.model.φ (RS.basisAt RS.fld4 S s (RS.pt RS.fld4 j)) * GF4.model.cwModel k src s).sum
      = GF4.model.cwModel k src j := by
  rw [C02_any_k_gf4 k n hk hn src S hnd hS hlen j hj, C02_systematic_gf4 k n hk hn src j hj]


/-- LDPC-Staircase / 2D parity, Gaussian-elimination stage: the transmitted block restricted to the unknown symbols satisfies
every equation of the simplified system, so whatever the solver model returns IS the transmitted block (and it then satisfies
every equation, including those the elimination never uses) -/
theorem C01_ml_sound {σ : Type} {O : Ops σ} (hO : Gauss.Lawful O) (q : Nat) (rows : List (Gauss.Row σ)) (hw : Gauss.Wide q rows)
    (hlen : q ≤ rows.length) (xs : List σ) (h : Gauss.solve O q rows = some xs) (sent : List σ) (hx : sent.length = q)
    (hsat : ∀ r ∈ rows, Gauss.Sat O sent r) : xs = sent :=
  (C03_solve_sound hO q rows hw hlen xs h sent hx hsat).1
