import OpenFecVerif.Props.C09
import OpenFecVerif.Gen.Validate
/-!
# C09 — the argument validation of `of_set_fec_parameters`, over the code itself

`Gen/Validate.lean` is regenerated on every run from `of_openfec_api.c` and the four `*_api.c` files: the translator follows each
`*_set_fec_parameters` function from its first statement up to the first statement outside its subset (the first allocation, the
construction of the parity-check matrix, the `switch` on the codec); every path that reaches that point yields "CONTINUE", every
`goto error` yields the name of the status constant returned there.  The theorems below characterise exactly which arguments reach
"CONTINUE", and `C09_limits_are_the_code` ties the hand-written acceptance predicate of the session model (`Api.withinLimits`, which
the other C09 theorems and the correspondence use) to these translations.
-/
open Api

theorem fin_err (P : Prop) (hP : ¬ P) : (("OF_STATUS_FATAL_ERROR" = "CONTINUE" ↔ P) ∧
    ("OF_STATUS_FATAL_ERROR" ≠ "CONTINUE" → "OF_STATUS_FATAL_ERROR" = "OF_STATUS_FATAL_ERROR")) :=
  ⟨⟨fun h => absurd h (by decide), fun h => absurd h hP⟩, fun _ => rfl⟩

theorem fin_ok (P : Prop) (hP : P) : (("CONTINUE" = "CONTINUE" ↔ P) ∧ ("CONTINUE" ≠ "CONTINUE" → "CONTINUE" = "OF_STATUS_FATAL_ERROR")) :=
  ⟨⟨fun _ => hP, fun _ => rfl⟩, fun h => absurd rfl h⟩

/-- generic layer (`of_set_fec_parameters` in of_openfec_api.c): non-NULL arguments and non-zero k, n−k, symbol length -/
theorem C09_generic_validation (k r len ses params : Nat) :
    (Gen.of_set_fec_parameters k r len ses params = "CONTINUE" ↔ (ses ≠ 0 ∧ params ≠ 0 ∧ 1 ≤ k ∧ 1 ≤ r ∧ 1 ≤ len)) ∧
    (Gen.of_set_fec_parameters k r len ses params ≠ "CONTINUE" → Gen.of_set_fec_parameters k r len ses params = "OF_STATUS_FATAL_ERROR") := by
  unfold Gen.of_set_fec_parameters
  by_cases h1 : ses = 0 ∨ params = 0
  · rw [if_pos h1]
    apply fin_err
    rintro ⟨a, b, _⟩
    rcases h1 with h1 | h1
    · exact a h1
    · exact b h1
  · rw [if_neg h1]
    by_cases h2 : (k ≤ 0 ∨ r ≤ 0) ∨ len ≤ 0
    · rw [if_pos h2]
      have hne : ¬ (ses ≠ 0 ∧ params ≠ 0 ∧ 1 ≤ k ∧ 1 ≤ r ∧ 1 ≤ len) := by omega
      (repeat' split) <;> exact fin_err _ hne
    · rw [if_neg h2]
      apply fin_ok
      exact ⟨fun h => h1 (Or.inl h), fun h => h1 (Or.inr h), by omega, by omega, by omega⟩

/-- Reed-Solomon GF(2^8) (`of_rs_set_fec_parameters`): k ≤ max_k, n−k ≤ max_n and k + (n−k) ≤ max_n in 32-bit arithmetic -/
theorem C09_rs8_validation (k maxk r maxn len : Nat) (hmaxk : maxk < 2 ^ 31) (hmax : maxn < 2 ^ 31) :
    (Gen.of_rs_set_fec_parameters k maxk r maxn len = "CONTINUE" ↔ (k ≤ maxk ∧ k + r ≤ maxn)) ∧
    (Gen.of_rs_set_fec_parameters k maxk r maxn len ≠ "CONTINUE" → Gen.of_rs_set_fec_parameters k maxk r maxn len = "OF_STATUS_FATAL_ERROR") := by
  unfold Gen.of_rs_set_fec_parameters
  dsimp only
  by_cases h1 : k > maxk
  · rw [if_pos h1]; exact fin_err _ (by omega)
  · rw [if_neg h1]
    by_cases h2 : r > maxn ∨ (k + r) % 4294967296 > maxn
    · rw [if_pos h2]
      apply fin_err
      intro h
      rcases h2 with h2 | h2
      · omega
      · rw [Nat.mod_eq_of_lt (by omega)] at h2; omega
    · rw [if_neg h2]
      apply fin_ok
      have h3 : ¬ r > maxn := fun h => h2 (Or.inl h)
      have h4 : ¬ (k + r) % 4294967296 > maxn := fun h => h2 (Or.inr h)
      rw [Nat.mod_eq_of_lt (by omega)] at h4
      omega

/-- Reed-Solomon GF(2^m) (`of_rs_2_m_set_fec_parameters`): m ∈ {4, 8} and k ≤ 2^m − 1.  **The number of repair symbols is not
examined** — this is the known finding of C09 (n > 2^m − 1 is accepted), here as a statement about the source. -/
theorem C09_rs2m_validation (m k r len : Nat) :
    (Gen.of_rs_2_m_set_fec_parameters m k r len = "CONTINUE" ↔ ((m = 4 ∨ m = 8) ∧ k ≤ 2 ^ m - 1)) ∧
    (Gen.of_rs_2_m_set_fec_parameters m k r len ≠ "CONTINUE" → Gen.of_rs_2_m_set_fec_parameters m k r len = "OF_STATUS_FATAL_ERROR") := by
  unfold Gen.of_rs_2_m_set_fec_parameters
  dsimp only
  by_cases h4 : m = 4
  · subst h4
    have hc : ¬ ((((4 : Nat) : Int) ≠ (4 : Int)) ∧ (((4 : Nat) : Int) ≠ (8 : Int))) := by decide
    rw [if_neg hc]
    have e : (Int.toNat (((CSem.toSigned 32 (((Int.toNat ((1 : Int) % 4294967296)) <<< (Int.toNat ((4 : Nat) : Int))) % 4294967296)) - (1 : Int)) % 65536)) = 15 := by decide
    rw [e]
    by_cases hk : k > 15
    · rw [if_pos hk]; exact fin_err _ (by omega)
    · rw [if_neg hk]; exact fin_ok _ ⟨Or.inl rfl, by omega⟩
  · by_cases h8 : m = 8
    · subst h8
      have hc : ¬ ((((8 : Nat) : Int) ≠ (4 : Int)) ∧ (((8 : Nat) : Int) ≠ (8 : Int))) := by decide
      rw [if_neg hc]
      have e : (Int.toNat (((CSem.toSigned 32 (((Int.toNat ((1 : Int) % 4294967296)) <<< (Int.toNat ((8 : Nat) : Int))) % 4294967296)) - (1 : Int)) % 65536)) = 255 := by decide
      rw [e]
      by_cases hk : k > 255
      · rw [if_pos hk]; exact fin_err _ (by omega)
      · rw [if_neg hk]; exact fin_ok _ ⟨Or.inr rfl, by omega⟩
    · have hne : (((m : Nat) : Int) ≠ (4 : Int)) ∧ (((m : Nat) : Int) ≠ (8 : Int)) := by
        constructor <;> omega
      rw [if_pos hne]
      apply fin_err
      rintro ⟨h | h, _⟩
      · exact h4 h
      · exact h8 h

/-- LDPC-Staircase (`of_ldpc_staircase_set_fec_parameters`, up to the call that builds the matrix): N1 ≥ 3, seed in 1..2^31−2,
k ≤ max_k, n−k ≤ max_n, k + (n−k) ≤ max_n in 32-bit arithmetic -/
theorem C09_ldpc_validation (N1 : Nat) (seed : Int) (k maxk r maxn len : Nat) (hmaxk : maxk < 2 ^ 31) (hmax : maxn < 2 ^ 31) :
    (Gen.of_ldpc_staircase_set_fec_parameters N1 seed k maxk r maxn len = "CONTINUE" ↔
      (3 ≤ N1 ∧ 1 ≤ seed ∧ seed ≤ 2147483646 ∧ k ≤ maxk ∧ k + r ≤ maxn)) ∧
    (Gen.of_ldpc_staircase_set_fec_parameters N1 seed k maxk r maxn len ≠ "CONTINUE" →
      Gen.of_ldpc_staircase_set_fec_parameters N1 seed k maxk r maxn len = "OF_STATUS_FATAL_ERROR") := by
  unfold Gen.of_ldpc_staircase_set_fec_parameters
  dsimp only
  by_cases h1 : ((N1 : Nat) : Int) < (3 : Int)
  · rw [if_pos h1]; exact fin_err _ (by omega)
  · rw [if_neg h1]
    by_cases h2 : seed < (1 : Int) ∨ seed > (2147483646 : Int)
    · rw [if_pos h2]; exact fin_err _ (by omega)
    · rw [if_neg h2]
      by_cases h3 : k > maxk
      · rw [if_pos h3]; exact fin_err _ (by omega)
      · rw [if_neg h3]
        by_cases h4 : r > maxn
        · rw [if_pos h4]; exact fin_err _ (by omega)
        · rw [if_neg h4]
          rw [Nat.mod_eq_of_lt (by omega : k + r < 4294967296)]
          by_cases h5 : k + r > maxn
          · rw [if_pos h5]; exact fin_err _ (by omega)
          · rw [if_neg h5]; exact fin_ok _ (by omega)

/-- 2D parity (`of_2d_parity_set_fec_parameters`, up to the construction of the matrix): k ≤ max_k and k + (n−k) ≤ max_n in 32-bit
arithmetic (n−k below 2^31) -/
theorem C09_2d_validation (k maxk r maxn len : Nat) (hmaxk : maxk < 2 ^ 31) (hr31 : r < 2 ^ 31) :
    (Gen.of_2d_parity_set_fec_parameters k maxk r maxn len = "CONTINUE" ↔ (k ≤ maxk ∧ k + r ≤ maxn)) ∧
    (Gen.of_2d_parity_set_fec_parameters k maxk r maxn len ≠ "CONTINUE" →
      Gen.of_2d_parity_set_fec_parameters k maxk r maxn len = "OF_STATUS_FATAL_ERROR") := by
  unfold Gen.of_2d_parity_set_fec_parameters
  dsimp only
  by_cases h1 : k > maxk
  · rw [if_pos h1]; exact fin_err _ (by omega)
  · rw [if_neg h1]
    rw [Nat.mod_eq_of_lt (by omega : k + r < 4294967296)]
    by_cases h5 : k + r > maxn
    · rw [if_pos h5]; exact fin_err _ (by omega)
    · rw [if_neg h5]; exact fin_ok _ (by omega)

/-- **the hand-written acceptance predicate of the session model is what the code computes** (codecs 1 and 3; limits regenerated from
the headers; arguments non-NULL): `Api.withinLimits` holds exactly when the generic layer and the codec's own validation both reach the
point where the session is set up, and — for LDPC-Staircase — N1 ≤ n−k, which `of_create_pchck_matrix_rfc5170_compliant` tests first -/
theorem C09_limits_are_the_code (codec : Nat) (p : Params) (ses params : Nat) (hs : ses ≠ 0) (hp : params ≠ 0) (hc : codec = 1 ∨ codec = 3) :
    withinLimits codec p = true ↔
      (Gen.of_set_fec_parameters p.k p.r p.len ses params = "CONTINUE" ∧
       (codec = 1 → Gen.of_rs_set_fec_parameters p.k Gen.RS_MAX_K p.r Gen.RS_MAX_N p.len = "CONTINUE") ∧
       (codec = 3 → (Gen.of_ldpc_staircase_set_fec_parameters p.N1 p.seed p.k Gen.LDPC_MAX_K p.r Gen.LDPC_MAX_N p.len = "CONTINUE"
                     ∧ p.N1 ≤ p.r))) := by
  rw [(C09_limits codec p).1, (C09_generic_validation p.k p.r p.len ses params).1]
  rcases hc with rfl | rfl
  · rw [(C09_rs8_validation p.k Gen.RS_MAX_K p.r Gen.RS_MAX_N p.len (by decide) (by decide)).1]
    have e1 : maxK 1 p.m = Gen.RS_MAX_K := rfl
    have e2 : maxN 1 p.m = Gen.RS_MAX_N := rfl
    rw [e1, e2]
    constructor
    · rintro ⟨a, b, c, d, e, _, _⟩
      exact ⟨⟨hs, hp, a, b, c⟩, fun _ => ⟨d, e⟩, (fun h => by cases h)⟩
    · rintro ⟨⟨_, _, a, b, c⟩, h1, _⟩
      obtain ⟨d, e⟩ := h1 rfl
      exact ⟨a, b, c, d, e, (fun h => by cases h), (fun h => by cases h)⟩
  · rw [(C09_ldpc_validation p.N1 p.seed p.k Gen.LDPC_MAX_K p.r Gen.LDPC_MAX_N p.len (by decide) (by decide)).1]
    have e1 : maxK 3 p.m = Gen.LDPC_MAX_K := rfl
    have e2 : maxN 3 p.m = Gen.LDPC_MAX_N := rfl
    rw [e1, e2]
    constructor
    · rintro ⟨a, b, c, d, e, _, h7⟩
      obtain ⟨f, g, h, i⟩ := h7 rfl
      exact ⟨⟨hs, hp, a, b, c⟩, (fun h => by cases h), fun _ => ⟨⟨f, h, i, d, e⟩, g⟩⟩
    · rintro ⟨⟨_, _, a, b, c⟩, _, h3⟩
      obtain ⟨⟨f, h, i, d, e⟩, g⟩ := h3 rfl
      exact ⟨a, b, c, d, e, (fun h => by cases h), fun _ => ⟨f, g, h, i⟩⟩

/-- Reed-Solomon GF(2^m): inside the model's limits the code's validation passes; conversely the code only guarantees m ∈ {4, 8} and
k ≤ 2^m − 1 (the known finding: n is not bounded by the field size) -/
theorem C09_limits_rs2m (p : Params) (ses params : Nat) (hs : ses ≠ 0) (hp : params ≠ 0) (h : withinLimits 2 p = true) :
    Gen.of_set_fec_parameters p.k p.r p.len ses params = "CONTINUE" ∧
    Gen.of_rs_2_m_set_fec_parameters p.m p.k p.r p.len = "CONTINUE" := by
  obtain ⟨a, b, c, d, e, f, _⟩ := (C09_limits 2 p).1.mp h
  refine ⟨(C09_generic_validation p.k p.r p.len ses params).1.mpr ⟨hs, hp, a, b, c⟩, ?_⟩
  refine (C09_rs2m_validation p.m p.k p.r p.len).1.mpr ⟨f rfl, ?_⟩
  have : maxK 2 p.m = 2 ^ p.m - 1 := rfl
  rw [this] at d; exact d

/-! ### the other entry points of the generic layer (NULL arguments, roles, ESI ranges) -/

variable {σ : Type}

/-- the role test `!(codec_type & bit)` of the generic layer, as the compiler evaluates it on the promoted 8-bit field -/
def roleMissing (ct : Nat) (b : Int) : Prop :=
  (if (CSem.toSigned 32 ((Int.toNat (((ct : Nat) : Int) % 4294967296)) &&& (Int.toNat (b % 4294967296)))) ≠ 0 then (0 : Int) else 1) ≠ 0

instance (ct : Nat) (b : Int) : Decidable (roleMissing ct b) := by unfold roleMissing; infer_instance

theorem roleMissing_table : (List.range 256).all (fun ct => decide (roleMissing ct 1 ↔ ct &&& 1 = 0) && decide (roleMissing ct 2 ↔ ct &&& 2 = 0)) = true := by
  decide +kernel

theorem roleMissing_iff (ct : Nat) (h : ct < 256) : (roleMissing ct 1 ↔ ct &&& 1 = 0) ∧ (roleMissing ct 2 ↔ ct &&& 2 = 0) := by
  have := List.all_eq_true.mp roleMissing_table ct (List.mem_range.mpr h)
  simp only [Bool.and_eq_true, decide_eq_true_eq] at this
  exact this

/-- `of_build_repair_symbol` (generic layer): non-NULL session, an encoder role, and k ≤ ESI < n -/
theorem C09_build_validation (ct k r ses esi : Nat) (hct : ct < 256) (hn : k + r < 2 ^ 32) :
    (Gen.of_build_repair_symbol ct k r ses esi = "CONTINUE" ↔ (ses ≠ 0 ∧ ct &&& 1 ≠ 0 ∧ k ≤ esi ∧ esi < k + r)) ∧
    (Gen.of_build_repair_symbol ct k r ses esi ≠ "CONTINUE" → Gen.of_build_repair_symbol ct k r ses esi = "OF_STATUS_FATAL_ERROR") := by
  unfold Gen.of_build_repair_symbol
  by_cases h1 : ses = 0
  · rw [if_pos h1]; exact fin_err _ (fun h => h.1 h1)
  · rw [if_neg h1]
    have hr := (roleMissing_iff ct hct).1
    unfold roleMissing at hr
    by_cases h2 : ct &&& 1 = 0
    · rw [if_pos (hr.mpr h2)]; exact fin_err _ (fun h => h.2.1 h2)
    · rw [if_neg (fun h => h2 (hr.mp h))]
      rw [Nat.mod_eq_of_lt (by omega : k + r < 4294967296)]
      by_cases h3 : esi < k ∨ esi ≥ k + r
      · rw [if_pos h3]; exact fin_err _ (by omega)
      · rw [if_neg h3]; exact fin_ok _ ⟨h1, h2, by omega, by omega⟩

/-- `of_decode_with_new_symbol` (generic layer): non-NULL session and buffer, a decoder role, and ESI < n -/
theorem C09_decode_validation (k r ct ses buf esi : Nat) (hct : ct < 256) (hn : k + r < 2 ^ 32) :
    (Gen.of_decode_with_new_symbol k r ct ses buf esi = "CONTINUE" ↔ (ses ≠ 0 ∧ buf ≠ 0 ∧ ct &&& 2 ≠ 0 ∧ esi < k + r)) ∧
    (Gen.of_decode_with_new_symbol k r ct ses buf esi ≠ "CONTINUE" → Gen.of_decode_with_new_symbol k r ct ses buf esi = "OF_STATUS_FATAL_ERROR") := by
  unfold Gen.of_decode_with_new_symbol
  by_cases h1 : ses = 0
  · rw [if_pos h1]; exact fin_err _ (fun h => h.1 h1)
  · rw [if_neg h1]
    rw [Nat.mod_eq_of_lt (by omega : k + r < 4294967296)]
    by_cases h3 : esi ≥ k + r
    · rw [if_pos h3]; exact fin_err _ (by omega)
    · rw [if_neg h3]
      have hr := (roleMissing_iff ct hct).2
      unfold roleMissing at hr
      by_cases h4 : buf = 0
      · rw [if_pos (Or.inl (Or.inl h4))]; exact fin_err _ (fun h => h.2.1 h4)
      · by_cases h2 : ct &&& 2 = 0
        · rw [if_pos (Or.inr (hr.mpr h2))]; exact fin_err _ (fun h => h.2.2.1 h2)
        · rw [if_neg]
          · exact fin_ok _ ⟨h1, h4, h2, by omega⟩
          · rintro ((h | h) | h)
            · exact h4 h
            · exact h3 h
            · exact h2 (hr.mp h)

/-- `of_set_available_symbols`, `of_finish_decoding`, `of_get_source_symbols_tab` (generic layer): non-NULL arguments and a decoder role -/
theorem C09_decoder_calls_validation (ct ses tab : Nat) (hct : ct < 256) :
    (Gen.of_set_available_symbols ct ses tab = "CONTINUE" ↔ (ses ≠ 0 ∧ tab ≠ 0 ∧ ct &&& 2 ≠ 0)) ∧
    (Gen.of_finish_decoding ct ses = "CONTINUE" ↔ (ses ≠ 0 ∧ ct &&& 2 ≠ 0)) ∧
    (Gen.of_get_source_symbols_tab ct ses = "CONTINUE" ↔ (ses ≠ 0 ∧ ct &&& 2 ≠ 0)) ∧
    (Gen.of_set_available_symbols ct ses tab ≠ "CONTINUE" → Gen.of_set_available_symbols ct ses tab = "OF_STATUS_FATAL_ERROR") ∧
    (Gen.of_finish_decoding ct ses ≠ "CONTINUE" → Gen.of_finish_decoding ct ses = "OF_STATUS_FATAL_ERROR") ∧
    (Gen.of_get_source_symbols_tab ct ses ≠ "CONTINUE" → Gen.of_get_source_symbols_tab ct ses = "OF_STATUS_FATAL_ERROR") := by
  have hr := (roleMissing_iff ct hct).2
  unfold roleMissing at hr
  have A : (Gen.of_set_available_symbols ct ses tab = "CONTINUE" ↔ (ses ≠ 0 ∧ tab ≠ 0 ∧ ct &&& 2 ≠ 0)) ∧
      (Gen.of_set_available_symbols ct ses tab ≠ "CONTINUE" → Gen.of_set_available_symbols ct ses tab = "OF_STATUS_FATAL_ERROR") := by
    unfold Gen.of_set_available_symbols
    by_cases h1 : ses = 0
    · rw [if_pos h1]; exact fin_err _ (fun h => h.1 h1)
    · rw [if_neg h1]
      by_cases h4 : tab = 0
      · rw [if_pos h4]; exact fin_err _ (fun h => h.2.1 h4)
      · rw [if_neg h4]
        by_cases h2 : ct &&& 2 = 0
        · rw [if_pos (hr.mpr h2)]; exact fin_err _ (fun h => h.2.2 h2)
        · rw [if_neg (fun h => h2 (hr.mp h))]; exact fin_ok _ ⟨h1, h4, h2⟩
  have B : (Gen.of_finish_decoding ct ses = "CONTINUE" ↔ (ses ≠ 0 ∧ ct &&& 2 ≠ 0)) ∧
      (Gen.of_finish_decoding ct ses ≠ "CONTINUE" → Gen.of_finish_decoding ct ses = "OF_STATUS_FATAL_ERROR") := by
    unfold Gen.of_finish_decoding
    by_cases h1 : ses = 0
    · rw [if_pos h1]; exact fin_err _ (fun h => h.1 h1)
    · rw [if_neg h1]
      by_cases h2 : ct &&& 2 = 0
      · rw [if_pos (hr.mpr h2)]; exact fin_err _ (fun h => h.2 h2)
      · rw [if_neg (fun h => h2 (hr.mp h))]; exact fin_ok _ ⟨h1, h2⟩
  have C : (Gen.of_get_source_symbols_tab ct ses = "CONTINUE" ↔ (ses ≠ 0 ∧ ct &&& 2 ≠ 0)) ∧
      (Gen.of_get_source_symbols_tab ct ses ≠ "CONTINUE" → Gen.of_get_source_symbols_tab ct ses = "OF_STATUS_FATAL_ERROR") := by
    unfold Gen.of_get_source_symbols_tab
    by_cases h1 : ses = 0
    · rw [if_pos h1]; exact fin_err _ (fun h => h.1 h1)
    · rw [if_neg h1]
      by_cases h2 : ct &&& 2 = 0
      · rw [if_pos (hr.mpr h2)]; exact fin_err _ (fun h => h.2 h2)
      · rw [if_neg (fun h => h2 (hr.mp h))]; exact fin_ok _ ⟨h1, h2⟩
  exact ⟨A.1, B.1, C.1, A.2, B.2, C.2⟩

/-- **the session model's guard on submissions is the code's**: `Api.step` answers FATAL to a submission exactly when the generic layer
of `of_decode_with_new_symbol` refuses it (role as stored at creation: 1 encoder, 2 decoder, 3 both; NULL buffer = `null`) -/
theorem C09_recv_guard_is_the_code (s : Session σ) (p : Params) (ses buf esi : Nat) (hs : ses ≠ 0) (hrole : s.role = 1 ∨ s.role = 2 ∨ s.role = 3)
    (hn : p.k + p.r < 2 ^ 32) :
    (decide (esi ≥ p.n) || decide (buf = 0) || !isDec s) = true ↔
      Gen.of_decode_with_new_symbol p.k p.r s.role ses buf esi = "OF_STATUS_FATAL_ERROR" := by
  obtain ⟨hiff, herr⟩ := C09_decode_validation p.k p.r s.role ses buf esi (by omega) hn
  have hdec : isDec s = true ↔ s.role &&& 2 ≠ 0 := by
    unfold isDec
    rcases hrole with h | h | h <;> rw [h] <;> decide
  constructor
  · intro h
    apply herr
    intro hc
    obtain ⟨_, hb, hd, he⟩ := hiff.mp hc
    simp only [Bool.or_eq_true, decide_eq_true_eq, Bool.not_eq_true'] at h
    rcases h with (h | h) | h
    · unfold Params.n at h; omega
    · exact hb h
    · have := hdec.mpr hd; rw [this] at h; cases h
  · intro h
    have hne : Gen.of_decode_with_new_symbol p.k p.r s.role ses buf esi ≠ "CONTINUE" := by rw [h]; decide
    rw [Ne, hiff] at hne
    simp only [Bool.or_eq_true, decide_eq_true_eq, Bool.not_eq_true']
    by_cases h1 : esi ≥ p.n
    · exact Or.inl (Or.inl h1)
    · by_cases h2 : buf = 0
      · exact Or.inl (Or.inr h2)
      · right
        cases hd : isDec s with
        | false => rfl
        | true =>
          exfalso
          apply hne
          exact ⟨hs, h2, hdec.mp hd, by unfold Params.n at h1; omega⟩

#print axioms C09_generic_validation
#print axioms C09_rs8_validation
#print axioms C09_rs2m_validation
#print axioms C09_ldpc_validation
#print axioms C09_2d_validation
#print axioms C09_limits_are_the_code
#print axioms C09_limits_rs2m
#print axioms C09_build_validation
#print axioms C09_decode_validation
#print axioms C09_decoder_calls_validation
#print axioms C09_recv_guard_is_the_code
