import OpenFecVerif.Model.Gauss
/-!
# C03 — LDPC-Staircase `of_finish_decoding` is ML-complete

Solver model `Gauss.solve` (forward elimination with first-pivot search and row exchange, backward
substitution), transliterated from of_ml_tool.c and run by `ofmodel` against the real library.
Part 1 (this file, proved): success of the solver is a function of the coefficient matrix alone — the
symbol values never influence whether decoding succeeds — and equals the rank test
`Gauss.fullColRank` that the correspondence check uses as specification-side oracle.
-/
namespace Gauss
variable {σ : Type}

def erase (r : Row σ) : Row Unit := (r.1, ())
def unitOps : Ops Unit := ⟨(), fun _ _ => (), fun _ _ => ()⟩

theorem pivot_erase (i : Nat) (rest : List (Row σ)) :
    (pivot i rest).map (List.map erase) = pivot i (rest.map erase) := by
  unfold pivot
  have hfind : (rest.map erase).findIdx? (fun r => bit r.1 i) = rest.findIdx? (fun r => bit r.1 i) := by
    rw [List.findIdx?_map]; rfl
  rw [hfind]
  cases hj : rest.findIdx? (fun r => bit r.1 i) with
  | none => rfl
  | some j =>
    simp only [List.getElem?_map, List.head?_map]
    cases hpj : rest[j]? with
    | none => simp
    | some pj =>
      cases hh : rest.head? with
      | none => simp
      | some h =>
        simp only [Option.map_some]
        by_cases hj0 : j = 0
        · simp [hj0]
        · simp only [hj0, if_false, Option.map_some, List.map_cons, List.map_tail]
          congr 2
          rw [List.map_set]

theorem elimCol_erase (O : Ops σ) (i : Nat) (rows : List (Row σ)) :
    (elimCol O i rows).map (List.map erase) = elimCol unitOps i (rows.map erase) := by
  unfold elimCol
  rw [← List.map_drop, ← pivot_erase]
  cases hp : pivot i (rows.drop i) with
  | none => rfl
  | some l =>
    cases l with
    | nil => rfl
    | cons p below =>
      simp only [Option.map_some, List.map_cons, List.map_append, List.map_take, List.map_map]
      congr 3
      apply List.map_congr_left
      intro r _
      simp only [Function.comp, erase]
      by_cases hb : bit r.1 i = true
      · simp [hb, addRow]
      · simp [hb]

theorem triangularize_erase (O : Ops σ) (q : Nat) (rows : List (Row σ)) :
    (triangularize O q rows).map (List.map erase) = triangularize unitOps q (rows.map erase) := by
  unfold triangularize
  generalize List.range q = cols
  induction cols generalizing rows with
  | nil => rfl
  | cons c t ih =>
    simp only [List.foldl_cons, Option.bind_some]
    cases he : elimCol O c rows with
    | none =>
      have := elimCol_erase O c rows
      rw [he] at this
      simp only [Option.map_none] at this
      rw [← this]
      -- both folds continue from `none`
      have hnone : ∀ (l : List Nat) (O' : Ops Unit), l.foldl (fun acc i => acc.bind (elimCol O' i)) (none : Option (List (Row Unit))) = none := by
        intro l O'; induction l with
        | nil => rfl
        | cons a t ih => simpa using ih
      have hnone' : ∀ (l : List Nat), l.foldl (fun acc i => acc.bind (elimCol O i)) (none : Option (List (Row σ))) = none := by
        intro l; induction l with
        | nil => rfl
        | cons a t ih => simpa using ih
      rw [hnone, hnone']; rfl
    | some rows' =>
      have := elimCol_erase O c rows
      rw [he] at this
      simp only [Option.map_some] at this
      rw [← this]
      exact ih rows'
end Gauss

open Gauss in
/-- **Data-obliviousness of ML decoding.**  Whether the solver succeeds depends only on the coefficient matrix:
it succeeds exactly when the rank test on the bare matrix does, whatever the symbol values are. -/
theorem C03_success_is_rank_test {σ : Type} (O : Ops σ) (q : Nat) (rows : List (Gauss.Row σ)) :
    (Gauss.solve O q rows).isSome = Gauss.fullColRank q (rows.map (·.1)) := by
  unfold Gauss.solve Gauss.fullColRank
  have h := triangularize_erase O q rows
  have hm : rows.map erase = (rows.map (·.1)).map (fun r => (r, ())) := by
    simp [erase, List.map_map, Function.comp]
  rw [hm] at h
  show ((triangularize O q rows).map (backSubst O q)).isSome = _
  rw [Option.isSome_map]
  have : (triangularize unitOps q ((rows.map (·.1)).map fun r => (r, ()))).isSome = (triangularize O q rows).isSome := by
    rw [← h, Option.isSome_map]
  rw [← this]

/-- … hence two sessions that received the same set of symbols (whatever the order, API or payload) succeed or fail together -/
theorem C03_outcome_payload_free {σ τ : Type} (O : Ops σ) (O' : Ops τ) (q : Nat) (rows : List (Gauss.Row σ)) (rows' : List (Gauss.Row τ))
    (h : rows.map (·.1) = rows'.map (·.1)) :
    (Gauss.solve O q rows).isSome = (Gauss.solve O' q rows').isSome := by
  rw [C03_success_is_rank_test, C03_success_is_rank_test, h]
