import OpenFecVerif.Model.Gauss
import OpenFecVerif.Proofs.GaussSound
/-!
# C03 — LDPC-Staircase `of_finish_decoding` is ML-complete

Solver model `Gauss.solve` (forward elimination with first-pivot search and row exchange, backward
substitution), transliterated from of_ml_tool.c and run by `ofmodel` against the real library.
Part 1 (this file, proved): success of the solver is a function of the coefficient matrix alone — the
symbol values never influence whether decoding succeeds — and equals the rank test
`Gauss.fullColRank` that the correspondence check uses as specification-side oracle.
-/
namespace Gauss
variable {σ : Type}

def erase (r : Row σ) : Row Unit := (r.1, ())
def unitOps : Ops Unit := ⟨(), fun _ _ => (), fun _ _ => ()⟩

theorem pivot_erase (i : Nat) (rest : List (Row σ)) :
    (pivot i rest).map (List.map erase) = pivot i (rest.map erase) := by
  unfold pivot
  have hfind : (rest.map erase).findIdx? (fun r => bit r.1 i) = rest.findIdx? (fun r => bit r.1 i) := by
    rw [List.findIdx?_map]; rfl
  rw [hfind]
  cases hj : rest.findIdx? (fun r => bit r.1 i) with
  | none => rfl
  | some j =>
    simp only [List.getElem?_map, List.head?_map]
    cases hpj : rest[j]? with
    | none => simp
    | some pj =>
      cases hh : rest.head? with
      | none => simp
      | some h =>
        simp only [Option.map_some]
        by_cases hj0 : j = 0
        · simp [hj0]
        · simp only [hj0, if_false, Option.map_some, List.map_cons, List.map_tail]
          congr 2
          rw [List.map_set]

theorem elimCol_erase (O : Ops σ) (i : Nat) (rows : List (Row σ)) :
    (elimCol O i rows).map (List.map erase) = elimCol unitOps i (rows.map erase) := by
  unfold elimCol
  rw [← List.map_drop, ← pivot_erase]
  cases hp : pivot i (rows.drop i) with
  | none => rfl
  | some l =>
    cases l with
    | nil => rfl
    | cons p below =>
      simp only [Option.map_some, List.map_cons, List.map_append, List.map_take, List.map_map]
      congr 3
      apply List.map_congr_left
      intro r _
      simp only [Function.comp, erase]
      by_cases hb : bit r.1 i = true
      · simp [hb, addRow]
      · simp [hb]

theorem triangularize_erase (O : Ops σ) (q : Nat) (rows : List (Row σ)) :
    (triangularize O q rows).map (List.map erase) = triangularize unitOps q (rows.map erase) := by
  unfold triangularize
  generalize List.range q = cols
  induction cols generalizing rows with
  | nil => rfl
  | cons c t ih =>
    simp only [List.foldl_cons, Option.bind_some]
    cases he : elimCol O c rows with
    | none =>
      have := elimCol_erase O c rows
      rw [he] at this
      simp only [Option.map_none] at this
      rw [← this]
      -- both folds continue from `none`
      have hnone : ∀ (l : List Nat) (O' : Ops Unit), l.foldl (fun acc i => acc.bind (elimCol O' i)) (none : Option (List (Row Unit))) = none := by
        intro l O'; induction l with
        | nil => rfl
        | cons a t ih => simpa using ih
      have hnone' : ∀ (l : List Nat), l.foldl (fun acc i => acc.bind (elimCol O i)) (none : Option (List (Row σ))) = none := by
        intro l; induction l with
        | nil => rfl
        | cons a t ih => simpa using ih
      rw [hnone, hnone']; rfl
    | some rows' =>
      have := elimCol_erase O c rows
      rw [he] at this
      simp only [Option.map_some] at this
      rw [← this]
      exact ih rows'
end Gauss

open Gauss in
/-- **Data-obliviousness of ML decoding.**  Whether the solver succeeds depends only on the coefficient matrix:
it succeeds exactly when the rank test on the bare matrix does, whatever the symbol values are. -/
theorem C03_success_is_rank_test {σ : Type} (O : Ops σ) (q : Nat) (rows : List (Gauss.Row σ)) :
    (Gauss.solve O q rows).isSome = Gauss.fullColRank q (rows.map (·.1)) := by
  unfold Gauss.solve Gauss.fullColRank
  have h := triangularize_erase O q rows
  have hm : rows.map erase = (rows.map (·.1)).map (fun r => (r, ())) := by
    simp [erase, List.map_map, Function.comp]
  rw [hm] at h
  show ((triangularize O q rows).map (backSubst O q)).isSome = _
  rw [Option.isSome_map]
  have : (triangularize unitOps q ((rows.map (·.1)).map fun r => (r, ()))).isSome = (triangularize O q rows).isSome := by
    rw [← h, Option.isSome_map]
  rw [← this]

/-- … hence two sessions that received the same set of symbols (whatever the order, API or payload) succeed or fail together -/
theorem C03_outcome_payload_free {σ τ : Type} (O : Ops σ) (O' : Ops τ) (q : Nat) (rows : List (Gauss.Row σ)) (rows' : List (Gauss.Row τ))
    (h : rows.map (·.1) = rows'.map (·.1)) :
    (Gauss.solve O q rows).isSome = (Gauss.solve O' q rows').isSome := by
  rw [C03_success_is_rank_test, C03_success_is_rank_test, h]


/-! Part 2: the solver is sound and ML-complete (Proofs/GaussSound.lean).  `Gauss.Sat O x r` : the assignment `x` (one symbol
per unknown) satisfies equation `r`; `Gauss.InKernel rows v` : the 0/1 vector `v` is in the kernel of the coefficient matrix;
`Gauss.Lawful O` : symbol addition is associative, commutative, with neutral element, every symbol its own opposite. -/

open Gauss in
/-- **Soundness.** Whatever the solver returns is the only candidate: every assignment satisfying all the equations equals it.
In decoding the transmitted block satisfies every equation, so a returned symbol can only be the transmitted one. -/
theorem C03_solve_unique {σ : Type} {O : Ops σ} (hO : Lawful O) (q : Nat) (rows : List (Gauss.Row σ)) (hw : Wide q rows)
    (hlen : q ≤ rows.length) (xs : List σ) (h : solve O q rows = some xs) :
    xs.length = q ∧ ∀ x : List σ, x.length = q → (∀ r ∈ rows, Sat O x r) → x = xs :=
  solve_unique hO q rows hw hlen xs h

open Gauss in
theorem C03_solve_sound {σ : Type} {O : Ops σ} (hO : Lawful O) (q : Nat) (rows : List (Gauss.Row σ)) (hw : Wide q rows)
    (hlen : q ≤ rows.length) (xs : List σ) (h : solve O q rows = some xs) (x : List σ) (hx : x.length = q)
    (hsat : ∀ r ∈ rows, Sat O x r) : xs = x ∧ ∀ r ∈ rows, Sat O xs r :=
  solve_sound hO q rows hw hlen xs h x hx hsat

open Gauss in
theorem homog_coeffs {σ : Type} (rows : List (Gauss.Row σ)) : (homog rows).map (·.1) = rows.map (·.1) := by
  simp [homog, List.map_map, Function.comp]

open Gauss in
/-- **ML-completeness.** The solver succeeds exactly when the coefficient matrix has full column rank, i.e. when the only 0/1
vector in its kernel is zero — exactly when the unknowns are uniquely determined by the equations.  Both directions, for every
p × q system with p ≥ q and any right-hand sides. -/
theorem C03_solve_iff_full_rank {σ : Type} (O : Ops σ) (q : Nat) (rows : List (Gauss.Row σ)) (hw : Wide q rows) (hlen : q ≤ rows.length) :
    (solve O q rows).isSome = true ↔ ∀ v : List Bool, v.length = q → InKernel rows v → v = List.replicate q false := by
  have hwB : Wide q (homog rows) := by
    intro r hr; obtain ⟨r0, hr0, rfl⟩ := List.mem_map.mp hr; exact hw r0 hr0
  have hlenB : q ≤ (homog rows).length := by simpa [homog] using hlen
  have hsame : (solve O q rows).isSome = (solve boolOps q (homog rows)).isSome := by
    rw [C03_success_is_rank_test, C03_success_is_rank_test, homog_coeffs]
  constructor
  · intro hs v hv hk
    rw [hsame] at hs
    obtain ⟨xs, hxs⟩ := Option.isSome_iff_exists.mp hs
    have hu := solve_unique boolOps_lawful q (homog rows) hwB hlenB xs hxs
    have h1 := hu.2 v hv ((inKernel_iff rows v).mp hk)
    have h0 := hu.2 (List.replicate q false) (by simp) ((inKernel_iff rows _).mp (fun r _ => dot_zeros r.1 q))
    rw [h1, ← h0]
  · intro hall
    rw [hsame]
    cases hs : solve boolOps q (homog rows) with
    | some xs => rfl
    | none =>
      exfalso
      have htn : triangularize boolOps q (homog rows) = none := by
        unfold solve at hs
        cases ht : triangularize boolOps q (homog rows) with
        | none => rfl
        | some t => rw [ht] at hs; simp at hs
      obtain ⟨v, hv, hne, hker⟩ := fail_kernel q (homog rows) hwB hlenB
        (by intro r hr; obtain ⟨r0, _, rfl⟩ := List.mem_map.mp hr; rfl) htn
      exact hne (hall v hv ((inKernel_iff rows v).mpr (fun r hr => by
        obtain ⟨r0, _, rfl⟩ := List.mem_map.mp hr
        unfold Sat; exact hker _ hr)))

-- non-vacuity: a 3 × 2 system of full column rank over byte-string symbols is solved; a rank-deficient one is refused
example : Gauss.fullColRank 2 [[true, true], [true, true], [false, true]] = true ∧ Gauss.fullColRank 2 [[true, true], [true, true], [false, false]] = false := by
  decide
