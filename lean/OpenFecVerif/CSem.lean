/-
C semantics helpers shared by the generated (`Gen/`) definitions and the hand models.
Core Lean only (no Mathlib) so that the `ofmodel` executable links.
-/
namespace CSem

/-- |x| on rationals (C `fabs`, exact). -/
def rabs (x : Rat) : Rat := if x < 0 then -x else x

/-- truncation toward zero (C conversion of a floating value to an integer type). -/
def truncZ (x : Rat) : Int := if 0 ≤ x then Rat.floor x else Rat.ceil x

/-- `(unsigned w-bit) x` for a double `x`: truncation, then reduction modulo `2^w`.
In range (0 ≤ trunc x < 2^w) this is the C semantics; out of range C leaves it undefined and this
is what gcc on x86-64 produces for w = 32 as long as |x| < 2^63 (cvttsd2si to a 64-bit register). -/
def f2u (w : Nat) (x : Rat) : Nat := Int.toNat ((truncZ x) % ((2 ^ w : Nat) : Int))

/-- `(INT32) x` for a double `x`: truncation when representable, otherwise the x86 "integer
indefinite" value -2^31 (cvttsd2si). -/
def f2i32 (x : Rat) : Int :=
  let t := truncZ x
  if (-2147483648 : Int) ≤ t ∧ t < 2147483648 then t else -2147483648

/-- reinterpret an unsigned `w`-bit value as two's complement. -/
def toSigned (w : Nat) (n : Nat) : Int := if n < 2 ^ (w - 1) then (n : Int) else (n : Int) - ((2 ^ w : Nat) : Int)

/-- 2^e as a rational for integer e -/
def pow2 (e : Int) : Rat := if 0 ≤ e then ((2 ^ e.toNat : Nat) : Rat) else 1 / ((2 ^ (-e).toNat : Nat) : Rat)

/-- Executable IEEE-754 binary64 round-to-nearest-even on exact rationals (no overflow/underflow
handling: callers stay in [2^-1000, 2^1000]). Used only by the `ofmodel` driver. -/
def rne53 (x : Rat) : Rat :=
  if x = 0 then 0 else
  let a := rabs x
  let n := a.num.toNat
  let d := a.den
  -- first guess of the exponent such that 2^52 ≤ a / 2^e < 2^53
  let e0 : Int := (Nat.log2 n : Int) - (Nat.log2 d : Int) - 52
  let s0 := a / pow2 e0
  let e : Int := if s0 < ((2 ^ 52 : Nat) : Rat) then e0 - 1 else if ((2 ^ 53 : Nat) : Rat) ≤ s0 then e0 + 1 else e0
  let s := a / pow2 e
  let q := Rat.floor s
  let r := s - (q : Rat)
  let half : Rat := 1 / 2
  let q' : Int := if r < half then q else if half < r then q + 1 else (if q % 2 = 0 then q else q + 1)
  let m := (q' : Rat) * pow2 e
  if x < 0 then -m else m

end CSem
