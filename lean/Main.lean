import OpenFecVerif.Model.TabCheck
import OpenFecVerif.Gen.Rand
import OpenFecVerif.Gen.Blocking
import OpenFecVerif.Gen.Popcount
import OpenFecVerif.Model.Api
import OpenFecVerif.Model.Kernels
/-!
`ofmodel`: line-protocol driver over the executable models (Appendix B of DESIGN.md).
One output line per input line.  Evaluates models; proves nothing.
-/
structure DrvState where
  seed : Nat := 1
  world : Api.World Bytes := {}

def bytesIO : Api.SymIO Bytes where
  ops := fun codec m len => if codec == 1 || (codec == 2 && m == 8) then Bytes.ops8 len
                            else if codec == 2 then Bytes.ops4 len else Bytes.ops2 len
  source := Bytes.source
  hex := Bytes.toHex

def parseApi (ws : List String) : Option Api.Op :=
  let n? := fun (s : String) => s.toNat?
  match ws with
  | ["case", _] => some .case_
  | ["case"] => some .case_
  | ["nullses"] => some .nullses
  | ["align", _] => some .align
  | ["new", s, c, r] => do some (.new (← n? s) (← n? c) (← n? r))
  | ["params", s, k, r, len, m, n1, seed] => do
      some (.params (← n? s) ⟨← n? k, ← n? r, ← n? len, ← n? m, (← n? n1) % 256, ← seed.toInt?⟩)
  | ["release", s] => do some (.release (← n? s))
  | ["cb", s, pol] => do
      some (.cb (← n? s) (if pol == "buf" then .buf else if pol == "null" then .null else if pol == "mix" then .mix else .none))
  | ["ctrl", s, what] => do some (.ctrl (← n? s) what)
  | ["payload", s, "id"] => do some (.payload (← n? s) 0 0)
  | ["payload", s, "rand", seed] => do some (.payload (← n? s) 1 (← n? seed))
  | ["build", s, e, own] => do some (.build (← n? s) (← n? e) (own == "own"))
  | ["recv", s, e] => do some (.recv (← n? s) (← n? e) false)
  | ["recvnull", s, e] => do some (.recv (← n? s) (← n? e) true)
  | ["avail", s, l] => do
      let es ← if l == "-" then some [] else (l.splitOn ",").mapM n?
      some (.avail (← n? s) es)
  | ["availnull", s] => do some (.availnull (← n? s))
  | ["finish", s] => do some (.finish (← n? s))
  | ["complete", s] => do some (.complete (← n? s))
  | ["sources", s] => do some (.sources (← n? s))
  | ["matrix", s] => do some (.matrix (← n? s))
  | ["cwdump", s] => do some (.cwdump (← n? s))
  | _ => none

def nat? (s : String) : Option Nat := s.toNat?

def step (st : DrvState) (line : String) : DrvState × String :=
  match line.trimAscii.toString.splitOn " " with
  | ["rand", "srand", s] => match nat? s with
      | some v => let s' := Gen.of_rfc5170_srand st.seed v; ({ st with seed := s' }, s!"ok seed={s'}")
      | none => (st, "bad-op")
  | ["rand", "next", m] => match nat? m with
      | some v => let r := Gen.of_rfc5170_rand CSem.rne53 st.seed v; ({ st with seed := r.1 }, s!"ok seed={r.1} out={r.2}")
      | none => (st, "bad-op")
  | ["rand", "walk", n] => match nat? n with
      | some v =>
          let r := (List.range v).foldl (fun (acc : Nat × Nat) _ =>
            let s' := (Gen.of_rfc5170_rand id acc.1 1).1
            (s', (acc.2 * 31 + s') % 2305843009213693951)) (st.seed, 0)
          ({ st with seed := r.1 }, s!"ok seed={r.1} sum={r.2}")
      | none => (st, "bad-op")
  | ["block", b, l, e] => match nat? b, nat? l, nat? e with
      | some b, some l, some e =>
          let r := Gen.of_compute_blocking_struct CSem.rne53 0 0 0 0 b l e
          (st, s!"ok nb_blocks={r.1} A_large={r.2.1} A_small={r.2.2.1} I={r.2.2.2}")
      | _, _, _ => (st, "bad-op")
  | ["popcnt", x] => match nat? x with
      | some v => (st, s!"ok p3={Gen.of_popcount_3 v} h32={Gen.of_hweight32 (v % 4294967296)} naive={Gen.of_hweight32_naive (v % 4294967296)}")
      | none => (st, "bad-op")
  | ["kern", name, size, count, _, _, c, seed] => match nat? size, nat? count, nat? c, nat? seed with
      | some size, some count, some c, some seed => (st, Kern.run name size count c seed)
      | _, _, _, _ => (st, "bad-op")
  | ["tabcheck"] => (st, "ok " ++ String.intercalate ";" TabCheck.all)
  | ["colcheck", k, n, rows] => match nat? k, nat? n with
      | some k, some n =>
        let Hl := ((rows.splitOn ";").filter (· != "")).map fun r => (r.splitOn ",").filterMap String.toNat?
        (st, s!"ok stair={if Api.stairCheck k Hl then 1 else 0} lastnull={if Api.lastNullCheckX n Hl then 1 else 0}")
      | _, _ => (st, "bad-op")
  | ["wfcheck", n, rows] => match nat? n with
      | some n =>
        -- rows: "0,1,2;3,4;" ; the well-formedness hypothesis of the C04 theorems, evaluated
        let Hl := ((rows.splitOn ";").filter (· != "")).map fun r => (r.splitOn ",").filterMap String.toNat?
        let ok := Hl.all fun row => row.all (· < n) && row.length != 1 && decide row.Nodup
        (st, s!"ok wf={if ok then 1 else 0}")
      | none => (st, "bad-op")
  | ws => match parseApi ws with
    | some op => let (w, o) := Api.step bytesIO st.world op; ({ st with world := w }, o)
    | none => (st, "bad-op")

partial def loop (h : IO.FS.Stream) (out : IO.FS.Stream) (st : DrvState) : IO Unit := do
  let line ← h.getLine
  if line.isEmpty then return ()
  if line.startsWith "#" then loop h out st else
  let (st', o) := step st line
  out.putStrLn o
  loop h out st'

def main : IO Unit := do
  let stdin ← IO.getStdin
  let stdout ← IO.getStdout
  loop stdin stdout {}
