import OpenFecVerif.Model.TabCheck
import OpenFecVerif.Gen.Rand
import OpenFecVerif.Gen.Blocking
import OpenFecVerif.Gen.Popcount
/-!
`ofmodel`: line-protocol driver over the executable models (Appendix B of DESIGN.md).
One output line per input line.  Evaluates models; proves nothing.
-/
structure DrvState where
  seed : Nat := 1

def nat? (s : String) : Option Nat := s.toNat?

def step (st : DrvState) (line : String) : DrvState × String :=
  match line.trimAscii.toString.splitOn " " with
  | ["rand", "srand", s] => match nat? s with
      | some v => let s' := Gen.of_rfc5170_srand st.seed v; ({ st with seed := s' }, s!"ok seed={s'}")
      | none => (st, "bad-op")
  | ["rand", "next", m] => match nat? m with
      | some v => let r := Gen.of_rfc5170_rand CSem.rne53 st.seed v; ({ st with seed := r.1 }, s!"ok seed={r.1} out={r.2}")
      | none => (st, "bad-op")
  | ["rand", "walk", n] => match nat? n with
      | some v =>
          let r := (List.range v).foldl (fun (acc : Nat × Nat) _ =>
            let s' := (Gen.of_rfc5170_rand id acc.1 1).1
            (s', (acc.2 * 31 + s') % 2305843009213693951)) (st.seed, 0)
          ({ st with seed := r.1 }, s!"ok seed={r.1} sum={r.2}")
      | none => (st, "bad-op")
  | ["block", b, l, e] => match nat? b, nat? l, nat? e with
      | some b, some l, some e =>
          let r := Gen.of_compute_blocking_struct CSem.rne53 0 0 0 0 b l e
          (st, s!"ok nb_blocks={r.1} A_large={r.2.1} A_small={r.2.2.1} I={r.2.2.2}")
      | _, _, _ => (st, "bad-op")
  | ["popcnt", x] => match nat? x with
      | some v => (st, s!"ok p3={Gen.of_popcount_3 v} h32={Gen.of_hweight32 (v % 4294967296)} naive={Gen.of_hweight32_naive (v % 4294967296)}")
      | none => (st, "bad-op")
  | ["tabcheck"] => (st, "ok " ++ String.intercalate ";" TabCheck.all)
  | _ => (st, "bad-op")

partial def loop (h : IO.FS.Stream) (out : IO.FS.Stream) (st : DrvState) : IO Unit := do
  let line ← h.getLine
  if line.isEmpty then return ()
  if line.startsWith "#" then loop h out st else
  let (st', o) := step st line
  out.putStrLn o
  loop h out st'

def main : IO Unit := do
  let stdin ← IO.getStdin
  let stdout ← IO.getStdout
  loop stdin stdout {}
