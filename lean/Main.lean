import OpenFecVerif.Model.TabCheck
import OpenFecVerif.Gen.Rand
import OpenFecVerif.Gen.Blocking
import OpenFecVerif.Gen.Popcount
import OpenFecVerif.Gen.Macros
import OpenFecVerif.Model.Api
import OpenFecVerif.Model.Kernels
import OpenFecVerif.Model.Dense
/-!
`ofmodel`: line-protocol driver over the executable models (Appendix B of DESIGN.md).
One output line per input line.  Evaluates models; proves nothing.
-/
structure DrvState where
  seed : Nat := 1
  world : Api.World Bytes := {}
  sm : TMap (Option Sparse.M) := TMap.mk' none
  dm : TMap (Option Dense.D) := TMap.mk' none

def bytesIO : Api.SymIO Bytes where
  ops := fun codec m len => if codec == 1 || (codec == 2 && m == 8) then Bytes.ops8 len
                            else if codec == 2 then Bytes.ops4 len else Bytes.ops2 len
  source := Bytes.source
  hex := Bytes.toHex

def parseApi (ws : List String) : Option Api.Op :=
  let n? := fun (s : String) => s.toNat?
  match ws with
  | ["case", _] => some .case_
  | ["case"] => some .case_
  | ["nullses"] => some .nullses
  | ["align", _] => some .align
  | ["new", s, c, r] => do some (.new (← n? s) (← n? c) (← n? r))
  | ["params", s, k, r, len, m, n1, seed] => do
      some (.params (← n? s) ⟨← n? k, ← n? r, ← n? len, ← n? m, (← n? n1) % 256, ← seed.toInt?⟩)
  | ["release", s] => do some (.release (← n? s))
  | ["unconf", s] => do some (.unconf (← n? s))
  | ["cb", s, pol] => do
      some (.cb (← n? s) (if pol == "buf" then .buf else if pol == "null" then .null else if pol == "mix" then .mix else .none))
  | ["ctrl", s, what] => do some (.ctrl (← n? s) what)
  | ["payload", s, "id"] => do some (.payload (← n? s) 0 0)
  | ["payload", s, "rand", seed] => do some (.payload (← n? s) 1 (← n? seed))
  | ["build", s, e, own] => do some (.build (← n? s) (← n? e) (own == "own"))
  | ["recv", s, e] => do some (.recv (← n? s) (← n? e) false)
  | ["recvnull", s, e] => do some (.recv (← n? s) (← n? e) true)
  | ["avail", s, l] => do
      let es ← if l == "-" then some [] else (l.splitOn ",").mapM n?
      some (.avail (← n? s) es)
  | ["availnull", s] => do some (.availnull (← n? s))
  | ["finish", s] => do some (.finish (← n? s))
  | ["complete", s] => do some (.complete (← n? s))
  | ["sources", s] => do some (.sources (← n? s))
  | ["matrix", s] => do some (.matrix (← n? s))
  | ["cwdump", s] => do some (.cwdump (← n? s))
  | _ => none


def natListOf (s : String) : Option (List Nat) :=
  if s == "-" then some [] else (s.splitOn ",").mapM String.toNat?

def hexByte (a b : Char) : UInt8 :=
  let v := fun (c : Char) => if c.toNat ≤ 57 then c.toNat - 48 else (c.toNat ||| 32) - 97 + 10
  (v a * 16 + v b).toUInt8

def hexBytes (s : String) : Bytes :=
  let rec go : List Char → Bytes → Bytes
    | a :: b :: t, acc => go t (acc.push (hexByte a b))
    | _, acc => acc
  go s.toList #[]

/-- matrix-module and solver lines of harness/matdrv.c -/
def matStep (st : DrvState) (ws : List String) : Option (DrvState × String) :=
  let n? := fun (s : String) => s.toNat?
  let noM := "bad-op no matrix"
  match ws with
  | ["salloc", i, nr, nc] => do
      let i ← n? i; let nr ← n? nr; let nc ← n? nc
      if i ≥ 8 then some (st, "bad-op") else
      if (st.sm.get i).isSome then some (st, "bad-op") else
      match Sparse.alloc nr nc with
      | some m => some ({ st with sm := st.sm.set i (some m) }, "ok m")
      | none => some (st, "ok null")
  | ["dalloc", i, nr, nc] => do
      let i ← n? i; let nr ← n? nr; let nc ← n? nc
      if i ≥ 8 then some (st, "bad-op") else
      if (st.dm.get i).isSome then some (st, "bad-op") else
      match Dense.alloc nr nc with
      | some m => some ({ st with dm := st.dm.set i (some m) }, "ok m")
      | none => some (st, "ok null")
  | ["sfree", i] => do
      let i ← n? i
      match st.sm.get i with
      | some _ => some ({ st with sm := st.sm.set i none }, "ok")
      | none => some (st, noM)
  | ["dfree", i] => do
      let i ← n? i
      match st.dm.get i with
      | some _ => some ({ st with dm := st.dm.set i none }, "ok")
      | none => some (st, noM)
  | ["sins", i, r, c] => do
      let i ← n? i; let r ← n? r; let c ← n? c
      match st.sm.get i with
      | none => some (st, noM)
      | some m =>
        match Sparse.insert m r c with
        | (_, none) => some (st, "ok null")
        | (m', some new) => some ({ st with sm := st.sm.set i (some m') }, s!"ok new={if new then 1 else 0} at={r},{c} same=1")
  | ["sfind", i, r, c] => do
      let i ← n? i; let r ← n? r; let c ← n? c
      match st.sm.get i with
      | none => some (st, noM)
      | some m => some (st, s!"ok f={if Sparse.find m r c then 1 else 0}")
  | ["sdel", i, r, c] => do
      let i ← n? i; let r ← n? r; let c ← n? c
      match st.sm.get i with
      | none => some (st, noM)
      | some m => let (m', d) := Sparse.delete m r c
                  some ({ st with sm := st.sm.set i (some m') }, s!"ok d={if d then 1 else 0}")
  | ["sclear", i] => do
      let i ← n? i
      match st.sm.get i with
      | none => some (st, noM)
      | some m => some ({ st with sm := st.sm.set i (some (Sparse.clear m)) }, "ok")
  | ["sdump", i] => do
      let i ← n? i
      match st.sm.get i with
      | none => some (st, noM)
      | some m => some (st, Sparse.dump m)
  | ["scopy", a, b] => do
      let a ← n? a; let b ← n? b
      match st.sm.get a, (if b < 8 then st.sm.get b else none) with
      | none, _ => some (st, noM)
      | some _, none => some (st, "bad-op")
      | some m, some r => some ({ st with sm := st.sm.set b (some (Sparse.copy m r)) }, "ok")
  | [op, a, b, l] =>
      if op == "scopyrows" || op == "scopycols" then do
        let a ← n? a; let b ← n? b; let l ← natListOf l
        match st.sm.get a, (if b < 8 then st.sm.get b else none) with
        | none, _ => some (st, noM)
        | some _, none => some (st, "bad-op")
        | some m, some r =>
          if l.length != (if op == "scopyrows" then r.nr else r.nc) then some (st, "bad-op list length") else
          let r' := if op == "scopyrows" then Sparse.copyrows m r l else Sparse.copycols m r l
          some ({ st with sm := st.sm.set b (some r') }, "ok")
      else if op == "dcopyrows" || op == "dcopycols" then do
        let a ← n? a; let b ← n? b; let l ← natListOf l
        match st.dm.get a, (if b < 8 then st.dm.get b else none) with
        | none, _ => some (st, noM)
        | some _, none => some (st, "bad-op")
        | some m, some r =>
          if l.length != (if op == "dcopyrows" then r.nr else r.nc) then some (st, "bad-op list length") else
          let r' := if op == "dcopyrows" then Dense.copyrows m r l else Dense.copycols m r l
          some ({ st with dm := st.dm.set b (some r') }, "ok")
      else if op == "dget" then do
        let a ← n? a; let r ← n? b; let c ← n? l
        match st.dm.get a with
        | none => some (st, noM)
        | some m => if r ≥ m.nr || c ≥ m.nc then some (st, "bad-op") else some (st, s!"ok v={Dense.get m r c}")
      else if op == "dflip" then do
        let a ← n? a; let r ← n? b; let c ← n? l
        match st.dm.get a with
        | none => some (st, noM)
        | some m => match Dense.flip m r c with
          | (_, none) => some (st, "ok r=-1")
          | (m', some v) => some ({ st with dm := st.dm.set a (some m') }, s!"ok r={v}")
      else if op == "dxor" then do
        let a ← n? a; let f ← n? b; let t ← n? l
        match st.dm.get a with
        | none => some (st, noM)
        | some m => if f ≥ m.nr || t ≥ m.nr then some (st, "bad-op")
                    else some ({ st with dm := st.dm.set a (some (Dense.xorRows m f t)) }, "ok")
      else none
  | ["scopyfilled", a, b, lr, lc] => do
      let a ← n? a; let b ← n? b; let lr ← natListOf lr; let lc ← natListOf lc
      match st.sm.get a, (if b < 8 then st.sm.get b else none) with
      | none, _ => some (st, noM)
      | some _, none => some (st, "bad-op")
      | some m, some r =>
        if lr.length != m.nr || lc.length != m.nc then some (st, "bad-op list length") else
        some ({ st with sm := st.sm.set b (some (Sparse.copyFilled m r lr lc)) }, "ok")
  | ["s2d", a, b] => do
      let a ← n? a; let b ← n? b
      match st.sm.get a, (if b < 8 then st.dm.get b else none) with
      | some m, some r => some ({ st with dm := st.dm.set b (some (Dense.ofSparse m r)) }, "ok")
      | _, _ => some (st, "bad-op")
  | ["d2s", a, b] => do
      let a ← n? a; let b ← n? b
      match st.dm.get a, (if b < 8 then st.sm.get b else none) with
      | some m, some r => some ({ st with sm := st.sm.set b (some (Dense.toSparse m r)) }, "ok")
      | _, _ => some (st, "bad-op")
  | ["dclear", i] => do
      let i ← n? i
      match st.dm.get i with
      | none => some (st, noM)
      | some m => some ({ st with dm := st.dm.set i (some (Dense.clear m)) }, "ok")
  | ["ddump", i] => do
      let i ← n? i
      match st.dm.get i with
      | none => some (st, noM)
      | some m => some (st, Dense.dump m)
  | ["dcopy", a, b] => do
      let a ← n? a; let b ← n? b
      match st.dm.get a, (if b < 8 then st.dm.get b else none) with
      | none, _ => some (st, noM)
      | some _, none => some (st, "bad-op")
      | some m, some r => some ({ st with dm := st.dm.set b (some (Dense.copy m r)) }, "ok")
  | ["dset", i, r, c, v] => do
      let i ← n? i; let r ← n? r; let c ← n? c; let v ← n? v
      match st.dm.get i with
      | none => some (st, noM)
      | some m => let (m', ok) := Dense.set m r c v
                  some ({ st with dm := st.dm.set i (some m') }, if ok then "ok r=0" else "ok r=-1")
  | ["solve", p, q, len, rows, rhs] => do
      let p ← n? p; let q ← n? q; let len ← n? len
      if p == 0 || q == 0 then some (st, "bad-op") else
      let rws := (rows.splitOn ";").filter (· != "")
      let rh := (rhs.splitOn ";").filter (· != "")
      let O := Bytes.ops2 len
      let sys : List (Gauss.Row Bytes) := (List.range p).map fun i =>
        (((rws.getD i "").toList.map (· == '1')) ++ List.replicate (q - (rws.getD i "").length) false |>.take q,
         let h := rh.getD i "N"; if h == "N" then O.zero else hexBytes h)
      match Gauss.solve O q sys with
      | none => some (st, "ok st=FAILURE")
      | some xs => some (st, "ok st=OK x=" ++ String.join (xs.map fun x => Bytes.toHex x ++ ";"))
  | ["solves", p, q, len, ents] => do
      -- tall systems given sparsely: only the listed rows are non-zero; all others are zero rows with a NULL right-hand side
      let p ← n? p; let q ← n? q; let len ← n? len
      if p == 0 || q == 0 then some (st, "bad-op") else
      let O := Bytes.ops2 len
      let listed : List (Nat × Gauss.Row Bytes) := ((ents.splitOn ";").filter (· != "")).filterMap fun e =>
        match e.splitOn ":" with
        | [r, bits, rhs] => match r.toNat? with
          | some ri => some (ri, (((bits.toList.map (· == '1')) ++ List.replicate (q - bits.length) false).take q,
                                  if rhs == "N" then O.zero else hexBytes rhs))
          | none => none
        | _ => none
      let tab : Array (Option (Gauss.Row Bytes)) := listed.foldl (fun (a : Array (Option (Gauss.Row Bytes))) (e : Nat × Gauss.Row Bytes) =>
        if e.1 < a.size then a.set! e.1 (some e.2) else a) (Array.replicate p none)
      let zero : Gauss.Row Bytes := (List.replicate q false, O.zero)
      let sys : List (Gauss.Row Bytes) := tab.toList.map fun o => o.getD zero
      match Gauss.solve O q sys with
      | none => some (st, "ok st=FAILURE")
      | some xs => some (st, "ok st=OK x=" ++ String.join (xs.map fun x => Bytes.toHex x ++ ";"))
  | _ => none

def nat? (s : String) : Option Nat := s.toNat?

def step (st : DrvState) (line : String) : DrvState × String :=
  match line.trimAscii.toString.splitOn " " with
  | ["rand", "srand", s] => match nat? s with
      | some v => let s' := Gen.of_rfc5170_srand st.seed v; ({ st with seed := s' }, s!"ok seed={s'}")
      | none => (st, "bad-op")
  | ["rand", "next", m] => match nat? m with
      | some v => let r := Gen.of_rfc5170_rand CSem.rne53 st.seed v; ({ st with seed := r.1 }, s!"ok seed={r.1} out={r.2}")
      | none => (st, "bad-op")
  | ["rand", "walk", n] => match nat? n with
      | some v =>
          let r := (List.range v).foldl (fun (acc : Nat × Nat) _ =>
            let s' := (Gen.of_rfc5170_rand id acc.1 1).1
            (s', (acc.2 * 31 + s') % 2305843009213693951)) (st.seed, 0)
          ({ st with seed := r.1 }, s!"ok seed={r.1} sum={r.2}")
      | none => (st, "bad-op")
  | ["block", b, l, e] => match nat? b, nat? l, nat? e with
      | some b, some l, some e =>
          let r := Gen.of_compute_blocking_struct CSem.rne53 0 0 0 0 b l e
          (st, s!"ok nb_blocks={r.1} A_large={r.2.1} A_small={r.2.2.1} I={r.2.2.2}")
      | _, _, _ => (st, "bad-op")
  | ["popcnt", x] => match nat? x with
      | some v => (st, s!"ok p3={Gen.of_popcount_3 v} h32={Gen.of_hweight32 (v % 4294967296)} naive={Gen.of_hweight32_naive (v % 4294967296)}")
      | none => (st, "bad-op")
  | ["macro", w, i] => match nat? w, nat? i with
      | some w, some i =>
        let w := w % 4294967296; let i := i % 4294967296
        (st, s!"ok get={Gen.vm_getbit w (i % 32)} set1={Gen.vm_setbit1 w (i % 32)} set0={Gen.vm_setbit0 w (i % 32)} wi={Gen.vm_word_index i} bi={Gen.vm_bit_index i} nw={Gen.vm_words_for i}")
      | _, _ => (st, "bad-op")
  | ["kern", name, size, count, _, _, c, seed] => match nat? size, nat? count, nat? c, nat? seed with
      | some size, some count, some c, some seed => (st, Kern.run name size count c seed)
      | _, _, _, _ => (st, "bad-op")
  | ["tabcheck"] => (st, "ok " ++ String.intercalate ";" TabCheck.all)
  | ["colcheck", k, n, rows] => match nat? k, nat? n with
      | some k, some n =>
        let Hl := ((rows.splitOn ";").filter (· != "")).map fun r => (r.splitOn ",").filterMap String.toNat?
        (st, s!"ok stair={if Api.stairCheck k Hl then 1 else 0} lastnull={if Api.lastNullCheckX n Hl then 1 else 0}")
      | _, _ => (st, "bad-op")
  | ["wfcheck", n, rows] => match nat? n with
      | some n =>
        -- rows: "0,1,2;3,4;" ; the well-formedness hypothesis of the C04 theorems, evaluated
        let Hl := ((rows.splitOn ";").filter (· != "")).map fun r => (r.splitOn ",").filterMap String.toNat?
        let ok := Hl.all fun row => row.all (· < n) && row.length != 1 && decide row.Nodup
        (st, s!"ok wf={if ok then 1 else 0}")
      | none => (st, "bad-op")
  | ws => match parseApi ws with
    | some op => let (w, o) := Api.step bytesIO st.world op; ({ st with world := w }, o)
    | none => match matStep st ws with
      | some r => r
      | none => (st, "bad-op")

partial def loop (h : IO.FS.Stream) (out : IO.FS.Stream) (st : DrvState) : IO Unit := do
  let line ← h.getLine
  if line.isEmpty then return ()
  if line.startsWith "#" then loop h out st else
  let (st', o) := step st line
  out.putStrLn o
  loop h out st'

def main : IO Unit := do
  let stdin ← IO.getStdin
  let stdout ← IO.getStdout
  loop stdin stdout {}
