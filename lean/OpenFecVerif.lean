-- This module serves as the root of the `OpenFecVerif` library.
-- Import modules here that should be built as part of the library.
import OpenFecVerif.Basic
